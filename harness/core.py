"""Shared machinery: TLC runner, @@-line parser, trace validation, evidence, findings.

Every property check is a module harness/props/cNN.py exposing

    LEVEL = "model_checking" | "fault_enumeration" | "exploration"
    def run(ck: Check) -> None

and uses only this file to talk to TLC and to report.  Exit codes of ./check:
0 = property held on everything explored (known findings are printed, not failed);
1 = at least one VIOLATION line; 2 = machinery failure (never a verdict).
"""
from __future__ import annotations

import json
import os
import re
import shutil
import subprocess
import sys
import time
import traceback
from pathlib import Path

ROOT = Path(__file__).resolve().parent.parent
SPEC = ROOT / "spec"
REPO = Path(os.environ.get("VERIF_REPO", "/repo"))
PY = "/venv/bin/python"
NCPU = int(os.environ.get("VERIF_CPUS", os.cpu_count() or 4))


_COUNTER = [0]


def _uniq():
  _COUNTER[0] += 1
  return f"{os.getpid()}_{_COUNTER[0]}"


class MachineryError(Exception):
  """Something in the verification machinery itself failed (exit 2)."""


# --------------------------------------------------------------------------
# TLC
# --------------------------------------------------------------------------

class TlcResult:
  def __init__(self, rc, out, wall):
    self.rc = rc
    self.out = out
    self.wall = wall
    m = re.search(r"(\d+) states generated, (\d+) distinct states found", out)
    self.generated = int(m.group(1)) if m else 0
    self.distinct = int(m.group(2)) if m else 0
    m = re.search(r"depth of the complete state graph search is (\d+)", out)
    self.depth = int(m.group(1)) if m else 0
    self.violated = None
    m = re.search(r"Error: Invariant (\S+) is violated", out)
    if m:
      self.violated = m.group(1)
    m = re.search(r"Error: Action property (\S+) is violated", out)
    if m:
      self.violated = m.group(1)
    if self.violated is None and "Error: Deadlock reached" in out:
      self.violated = "Deadlock"
    if self.violated is None and re.search(r"Temporal properties were violated", out):
      self.violated = "Temporal"
    self.ok = (rc == 0 and self.violated is None and
               "Model checking completed. No error has been found." in out)
    self.sim_ok = (self.violated is None and "Error:" not in out)
    # coverage: "<Action line a, col b to line c, col d of module M>: x:y"
    self.coverage = {}
    for m in re.finditer(r"^<(\w+) line \d+, col \d+ to line \d+, col \d+ of module (\w+)>: (\d+):(\d+)",
                         out, re.M):
      name = m.group(1)
      d, t = int(m.group(3)), int(m.group(4))
      old = self.coverage.get(name, (0, 0))
      self.coverage[name] = (old[0] + d, old[1] + t)

  def lines(self, tag):
    """Payloads of lines printed with PrintT("@@TAG " \\o ToJson(x))."""
    res = []
    pref = '"@@' + tag + ' '
    for line in self.out.splitlines():
      if line.startswith(pref):
        try:
          s = json.loads(line)
        except Exception as e:  # pragma: no cover
          raise MachineryError(f"cannot decode TLC line {line[:200]!r}: {e}")
        res.append(json.loads(s[len(tag) + 3:]))
    return res

  def counterexample(self):
    """The textual error trace TLC printed (if any)."""
    i = self.out.find("Error:")
    return self.out[i:i + 6000] if i >= 0 else ""


def tlc(module, cfg=None, *, workers=None, work=None, env=None, timeout=3600,
        simulate=None, depth=None, seed=None, coverage=False, dfs=False,
        extra=()):
  """Run TLC on spec/<module>.tla with spec/<cfg>.cfg."""
  cfg = cfg or module
  work = Path(work or (ROOT / ".work" / "tlc"))
  meta = work / f"meta_{module}_{cfg}_{_uniq()}"
  meta.mkdir(parents=True, exist_ok=True)
  cmd = ["tlc", "-workers", str(workers or NCPU), "-metadir", str(meta),
         "-noGenerateSpecTE", "-config", f"{cfg}.cfg"]
  if coverage:
    cmd += ["-coverage", "1"]
  if simulate is not None:
    cmd += ["-simulate", f"num={simulate}"]
    if depth:
      cmd += ["-depth", str(depth)]
  if seed is not None:
    cmd += ["-seed", str(seed)]
  cmd += list(extra)
  cmd += [f"{module}.tla"]
  e = dict(os.environ)
  e.update(env or {})
  if dfs:
    e["JAVA_TOOL_OPTIONS"] = (e.get("JAVA_TOOL_OPTIONS", "") +
                              " -Dtlc2.tool.queue.IStateQueue=StateDeque").strip()
  t0 = time.time()
  try:
    p = subprocess.run(cmd, cwd=SPEC, env=e, capture_output=True, text=True,
                       timeout=timeout)
    out, rc = p.stdout + p.stderr, p.returncode
  except subprocess.TimeoutExpired as ex:
    out = (ex.stdout or b"").decode() if isinstance(ex.stdout, bytes) else (ex.stdout or "")
    out += "\n@@TIMEOUT"
    rc = 124
  finally:
    shutil.rmtree(meta, ignore_errors=True)
  res = TlcResult(rc, out, time.time() - t0)
  (work / f"{module}_{cfg}.out").write_text(out)
  return res


def apalache(module, *, init, inv, length, cinit=None, work=None, timeout=900):
  """Bounded symbolic check with Apalache (used for inductive invariants: init = any state satisfying
  the invariant, length = 1).  Returns 'ok', 'violated' or 'error' plus the tool output."""
  work = Path(work or (ROOT / ".work" / "apalache"))
  out = work / f"apa_{module}_{inv}_{_uniq()}"
  out.mkdir(parents=True, exist_ok=True)
  cmd = ["apalache-mc", "check", f"--init={init}", f"--inv={inv}", f"--length={length}", f"--out-dir={out}"]
  if cinit:
    cmd.append(f"--cinit={cinit}")
  cmd.append(str(SPEC / f"{module}.tla"))
  try:
    p = subprocess.run(cmd, cwd=work, capture_output=True, text=True, timeout=timeout)
    text = p.stdout + p.stderr
  except subprocess.TimeoutExpired:
    return "error", "timeout"
  finally:
    shutil.rmtree(out, ignore_errors=True)
  if "EXITCODE: OK" in text and "Checker reports no error" in text:
    return "ok", text
  if "Checker has found an error" in text or "invariant violation" in text.lower():
    return "violated", text
  return "error", text


def tlc_must_pass(module, cfg=None, required_actions=(), **kw):
  """Exhaustive model checking run that must find no error; returns the result.

  A property violated *on the model* is a machinery error for a check (the model
  is wrong or the design is broken; either way nothing about the code has been
  learnt), unless the caller handles it explicitly.
  """
  r = tlc(module, cfg, coverage=bool(required_actions), **kw)
  if not r.ok:
    raise MachineryError(
        f"TLC {module}/{cfg or module}: rc={r.rc} violated={r.violated}\n" +
        r.out[-3000:])
  for a in required_actions:
    if r.coverage.get(a, (0, 0))[1] == 0:
      raise MachineryError(f"vacuous model: action {a} never taken in {module}/{cfg}")
  return r


# --------------------------------------------------------------------------
# known findings
# --------------------------------------------------------------------------

def load_findings():
  p = ROOT / "known_findings.json"
  if not p.exists():
    return []
  return json.loads(p.read_text())["findings"]


# --------------------------------------------------------------------------
# the per-run context
# --------------------------------------------------------------------------

class Check:
  _live = {}

  def __init__(self, pid, level, tier, seed, parent=None):
    """parent: build a throw-away sub-context (binding self-tests) that shares the parent's
    scratch directory and never touches evidence; without it the scratch directory is wiped."""
    self.pid = pid
    self.level = level
    self.tier = tier
    self.seed = seed
    self.t0 = time.time()
    if parent is not None:
      self.work = parent.work
    elif pid in Check._live:
      # a second context for the same property inside one process (self-tests): share the
      # scratch directory instead of wiping it under the first one
      self.work = Check._live[pid]
    else:
      base = ROOT / ".work" / pid
      base.mkdir(parents=True, exist_ok=True)
      for d in base.iterdir():          # wipe scratch of finished runs only
        if d.name.isdigit() and not os.path.exists(f"/proc/{d.name}"):
          shutil.rmtree(d, ignore_errors=True)
      self.work = base / str(os.getpid())
      shutil.rmtree(self.work, ignore_errors=True)
      self.work.mkdir(parents=True, exist_ok=True)
      Check._live[pid] = self.work
    self.violations = []       # (key, what, replay_path)
    self.known_hits = {}       # key -> what
    self.selftests = []        # (name, passed)
    self.cov = {"states": 0, "transitions": 0, "traces_validated_against_impl": 0,
                "samples": [], "evaluations": 0, "distinct_nontrivial": 0,
                "tlc_runs": [], "calibration": {}}
    self.assumptions = []
    self._distinct = set()
    self.findings = [f for f in load_findings() if f["property"] == pid]
    self.quick = tier == "quick"

  # ---- TLC helpers that account for coverage --------------------------------
  def mc(self, module, cfg=None, required_actions=(), **kw):
    r = tlc_must_pass(module, cfg, required_actions, work=self.work, **kw)
    self.cov["states"] += r.distinct
    self.cov["transitions"] += r.generated
    self.cov["tlc_runs"].append({"module": module, "cfg": cfg or module, "distinct": r.distinct,
                                 "generated": r.generated, "depth": r.depth,
                                 "wall_s": round(r.wall, 1),
                                 "actions": {k: v[1] for k, v in r.coverage.items()}})
    return r

  def gen(self, module, cfg=None, tag="GEN", simulate=None, depth=None, **kw):
    """Behaviours exported by a *_Gen configuration (one JSON object per line)."""
    kw.setdefault("workers", 1)
    r = tlc(module, cfg, work=self.work, simulate=simulate, depth=depth,
            seed=(self.seed if simulate else None), **kw)
    good = r.ok if simulate is None else r.sim_ok
    if not good:
      raise MachineryError(f"TLC gen {module}/{cfg}: rc={r.rc} violated={r.violated}\n" + r.out[-3000:])
    items = r.lines(tag)
    if not items:
      raise MachineryError(f"TLC gen {module}/{cfg} exported nothing")
    self.cov["tlc_runs"].append({"module": module, "cfg": cfg or module, "exported": len(items),
                                 "distinct": r.distinct, "generated": r.generated,
                                 "wall_s": round(r.wall, 1)})
    if simulate is None:
      self.cov["states"] += r.distinct
      self.cov["transitions"] += r.generated
    return items

  def validate(self, module, cfg, traces, tag="V", timeout=3600):
    """Validate recorded traces against a *_Trace spec.

    `traces` is a list of dicts; each gets "tid" = its 1-based position.  The trace
    spec prints one verdict line per trace: {"tid", "l", "verdict"}; verdict "ok"
    with l = len(events)+1 means accepted.  Returns list of verdict dicts ordered by tid.
    """
    if not traces:
      raise MachineryError("no traces to validate")
    for i, t in enumerate(traces):
      t["tid"] = i + 1
    f = self.work / f"traces_{module}_{len(traces)}_{_uniq()}.json"
    f.write_text(json.dumps(traces))
    r = tlc(module, cfg, workers=1, work=self.work, env={"TRACE_FILE": str(f)},
            timeout=timeout)
    if not r.ok:
      raise MachineryError(f"TLC trace validation {module}/{cfg}: rc={r.rc} "
                           f"violated={r.violated}\n" + r.out[-3000:])
    verdicts = {}
    for v in r.lines(tag):
      verdicts[v["tid"]] = v
    out = []
    for i, t in enumerate(traces):
      v = verdicts.get(i + 1)
      if v is None:
        raise MachineryError(f"trace {i+1} got no verdict from {module}")
      v["accepted"] = (v["verdict"] == "ok" and v["l"] == len(t["events"]) + 1)
      out.append(v)
    self.cov["tlc_runs"].append({"module": module, "cfg": cfg, "traces": len(traces),
                                 "distinct": r.distinct, "wall_s": round(r.wall, 1)})
    return out

  # ---- accounting ----------------------------------------------------------------
  def count(self, n=1, key=None, nontrivial=True):
    """Count evaluations; `key` (hashable/str) identifies a distinct case."""
    self.cov["evaluations"] += n
    if key is not None and nontrivial:
      self._distinct.add(key if isinstance(key, str) else json.dumps(key, sort_keys=True, default=str))

  def traces_ok(self, n=1):
    self.cov["traces_validated_against_impl"] += n

  def sample(self, obj, limit=6):
    if len(self.cov["samples"]) < limit:
      self.cov["samples"].append(obj)

  def calib(self, name, worst, tol):
    c = self.cov["calibration"].setdefault(name, {"worst_observed": 0.0, "tolerance": tol})
    c["worst_observed"] = max(c["worst_observed"], float(worst))
    c["tolerance"] = tol

  def assume(self, text):
    if text not in self.assumptions:
      self.assumptions.append(text)

  def selftest(self, name, rejected):
    """Binding self-test: a deliberately corrupted case must be rejected."""
    self.selftests.append({"name": name, "rejected": bool(rejected)})
    if not rejected and self.violations:
      # The self-tests corrupt an EXPECTATION and rely on the code under test behaving as specified; when the
      # run has already established that it does not, an unrejected corruption says nothing about the binding
      # (the code may simply behave the way the corruption describes).  The violations stand; the self-test is
      # recorded as inconclusive.
      self.selftests[-1]["inconclusive_because_violations_were_found"] = True
      return
    if not rejected:
      raise MachineryError(f"binding self-test '{name}' was NOT rejected: the check is "
                           "not bound to what it claims to observe")

  # ---- verdicts --------------------------------------------------------------------
  def violation(self, key, what, replay=None):
    """Report a violation observed on the real code.

    `key` names the specific failing input class / call site; if it matches an open
    known finding (exact key or listed prefix) it is reported as KNOWN-FINDING.
    """
    for f in self.findings:
      if f.get("status") == "open" and (key == f["key"] or key.startswith(f["key"] + "|")):
        self.known_hits.setdefault(f["key"], f["what"])
        return False
    if any(v[0] == key for v in self.violations):
      return True
    d = ROOT / "replay" / self.pid
    d.mkdir(parents=True, exist_ok=True)
    safe = re.sub(r"[^A-Za-z0-9_.-]+", "_", key)[:80]
    path = d / f"{safe}.json"
    path.write_text(json.dumps({"property": self.pid, "key": key, "what": what,
                                "seed": self.seed, "tier": self.tier, "case": replay,
                                "rerun": f"./check {self.pid} --tier {self.tier}"},
                               indent=1, default=str))
    self.violations.append((key, what, str(path)))
    return True

  def finish(self):
    cov = self.cov
    cov["distinct_nontrivial"] = len(self._distinct)
    cov.setdefault("rule", "cases are behaviours / case records exported by TLC from the property's TLA+ module "
                   "(exhaustive within the stated constants, or `-simulate` seeded by VERIF_SEED) and traces "
                   "recorded from real runs; a case counts as distinct and non-trivial when its key "
                   "(configuration, input history / geometry, seed) has not been seen before in this run and "
                   "the real code was actually executed on it")
    cov["binding_selftests"] = self.selftests
    if WORKER_RETRIES:
      cov["worker_processes_restarted_after_crash"] = list(WORKER_RETRIES)
    cov["known_findings_hit"] = sorted(self.known_hits)
    ev = {
        "property_id": self.pid,
        "tier": self.tier,
        "seed": self.seed,
        "level": self.level,
        "coverage": cov,
        "assumptions": self.assumptions,
        "wall_s": round(time.time() - self.t0, 1),
        "violations": len(self.violations),
    }
    if not cov["samples"]:
      raise MachineryError("no samples recorded")
    if REPO.resolve() == Path("/repo"):
      evdir = ROOT / "evidence"
    else:                      # a scratch copy under test (mutant / seeded change): keep real evidence intact
      evdir = ROOT / ".work" / "evidence_scratch"
    evdir.mkdir(parents=True, exist_ok=True)
    (evdir / f"{self.pid}.json").write_text(json.dumps(ev, indent=1, default=str))
    for k, what in sorted(self.known_hits.items()):
      print(f"KNOWN-FINDING: property={self.pid} {k}: {what}")
    for key, what, path in self.violations:
      print(f"VIOLATION property={self.pid} replay={path}")
      print(f"  {key}: {what}")
    print(f"[{self.pid}] tier={self.tier} seed={self.seed} states={cov['states']} "
          f"transitions={cov['transitions']} replayed/validated={cov['traces_validated_against_impl']} "
          f"evaluations={cov['evaluations']} distinct={cov['distinct_nontrivial']} "
          f"selftests={len(self.selftests)} wall={ev['wall_s']}s "
          f"violations={len(self.violations)} known={len(self.known_hits)}")
    return 1 if self.violations else 0


# --------------------------------------------------------------------------
# running the real code in worker processes
# --------------------------------------------------------------------------

def worker_env(x64=False, devices=None):
  e = dict(os.environ)
  e["JAX_PLATFORMS"] = "cpu"
  e["PYTHONHASHSEED"] = "0"
  e["PYTHONPATH"] = f"{REPO}:{ROOT}" + (":" + e["PYTHONPATH"] if e.get("PYTHONPATH") else "")
  e["JAX_ENABLE_X64"] = "1" if x64 else "0"
  e["TF_CPP_MIN_LOG_LEVEL"] = "3"
  if devices:
    e["XLA_FLAGS"] = f"--xla_force_host_platform_device_count={devices}"
  else:
    e.pop("XLA_FLAGS", None)
  return e


WORKER_RETRIES = []     # chunks that were given to a fresh worker process after a crash (reported in evidence)


def run_workers(worker_module, jobs, *, x64=False, devices=None, nproc=None, timeout=3600,
                chunk=None, work=None, retries=2):
  """Run `python -m <worker_module> <in.json> <out.json>` over chunks of `jobs`.

  The worker reads a JSON list of job dicts and writes a JSON list of result dicts
  (same order).  A worker crash is a machinery error, never a verdict: workers must
  catch exceptions of the code under test themselves and report them as data.
  """
  if not jobs:
    return []
  nproc = nproc or NCPU
  work = Path(work or (ROOT / ".work" / "workers"))
  work.mkdir(parents=True, exist_ok=True)
  chunk = chunk or max(1, (len(jobs) + nproc - 1) // nproc)
  chunks = [jobs[i:i + chunk] for i in range(0, len(jobs), chunk)]
  env = worker_env(x64=x64, devices=devices)
  results = [None] * len(chunks)
  pending = list(enumerate(chunks))
  running = []
  attempts = {}
  tag = f"{worker_module.split('.')[-1]}_{_uniq()}"
  t_end = time.time() + timeout
  while pending or running:
    while pending and len(running) < nproc:
      i, ch = pending.pop(0)
      fi = work / f"{tag}_{i}.in.json"
      fo = work / f"{tag}_{i}.out.json"
      fi.write_text(json.dumps(ch))
      log = open(work / f"{tag}_{i}.log", "w")
      p = subprocess.Popen([PY, "-m", worker_module, str(fi), str(fo)], cwd=ROOT, env=env,
                           stdout=log, stderr=subprocess.STDOUT)
      running.append((i, p, fi, fo, log))
    time.sleep(0.05)
    still = []
    for (i, p, fi, fo, log) in running:
      rc = p.poll()
      if rc is None:
        if time.time() > t_end:
          p.kill()
          raise MachineryError(f"worker {worker_module} chunk {i} timed out")
        still.append((i, p, fi, fo, log))
        continue
      log.close()
      done = None
      if fo.exists():
        try:
          done = json.loads(fo.read_text())
        except ValueError:
          done = None
        if done is not None and len(done) != len(chunks[i]):
          done = None
      if done is None:
        # The worker process died (observed: an intermittent native crash inside jaxlib's CPU client with
        # several forced host devices, about once in twenty C13 runs, not reproducible for the same input).
        # A fresh process gets the same chunk, twice at most; a deterministic crash still ends as a
        # machinery error (exit 2), never as a verdict.
        attempts[i] = attempts.get(i, 0) + 1
        if attempts[i] <= retries:
          WORKER_RETRIES.append(f"{worker_module} chunk {i} rc={rc}")
          pending.insert(0, (i, chunks[i]))
          continue
        tail = (work / f"{tag}_{i}.log").read_text()[-3000:]
        for (_, q, *_r) in running:
          if q.poll() is None:
            q.kill()
        raise MachineryError(f"worker {worker_module} chunk {i} rc={rc} ({attempts[i]} attempts)\n{tail}")
      results[i] = done
      fi.unlink(missing_ok=True)
      fo.unlink(missing_ok=True)
    running = still
  out = []
  for r, ch in zip(results, chunks):
    if len(r) != len(ch):
      raise MachineryError(f"worker {worker_module} returned {len(r)} results for {len(ch)} jobs")
    out.extend(r)
  return out


def worker_main(handle):
  """Entry point helper for worker modules: handle(job) -> result dict."""
  fi, fo = sys.argv[1], sys.argv[2]
  jobs = json.loads(Path(fi).read_text())
  res = []
  for j in jobs:
    res.append(handle(j))
  Path(fo).write_text(json.dumps(res, default=_json_default))


def _json_default(o):
  try:
    import numpy as np
    if isinstance(o, (np.integer,)):
      return int(o)
    if isinstance(o, (np.floating,)):
      return float(o)
    if isinstance(o, (np.bool_,)):
      return bool(o)
    if isinstance(o, np.ndarray):
      return o.tolist()
  except Exception:
    pass
  return str(o)


def replay_case(ck, path):
  """Generic `./check <ID> --replay <file>`: re-runs exactly the stored case on the current tree.

  A replay file written by Check.violation holds the case; when it names the worker module
  (`worker`, `job`, optional `x64`, `devices`) that one job is run again, when it holds a recorded
  trace (`trace_module`, `trace_cfg`, `trace`) the trace is validated again.  Exit 1 if the case still
  fails, 0 if it passes now."""
  d = json.loads(Path(path).read_text())
  case = d.get("case") or {}
  print(f"replaying {d.get('property')} {d.get('key')}: {d.get('what', '')[:300]}")
  if case.get("worker") and case.get("job") is not None:
    r = run_workers(case["worker"], [case["job"]], x64=bool(case.get("x64")), devices=case.get("devices"),
                    work=ck.work, nproc=1)[0]
    bad = bool(r.get("mismatches")) or bool(r.get("error")) or bool(r.get("clauses"))
    print(json.dumps({k: v for k, v in r.items() if k in ("mismatches", "error", "worst", "clauses")},
                     default=str)[:3000])
  elif case.get("trace_module") and case.get("trace") is not None:
    t = case["trace"]
    v = ck.validate(case["trace_module"], case.get("trace_cfg", case["trace_module"]),
                    [{k: t[k] for k in t if k != "meta"}])[0]
    print(json.dumps(v))
    bad = not v["accepted"]
  else:
    print("this replay file carries no re-runnable case; re-run the check itself:", d.get("rerun"))
    return 2
  if bad:
    print(f"VIOLATION property={d.get('property')} replay={path}")
    return 1
  print("the stored case passes on the current tree")
  return 0


def classify_exception(e):
  """'explicit' if raised by a `raise` statement inside /repo/precondition with
  ValueError/NotImplementedError, else 'internal'."""
  tb = traceback.extract_tb(e.__traceback__)
  last = tb[-1] if tb else None
  in_repo = last is not None and "/precondition/" in last.filename and "site-packages" not in last.filename
  explicit_type = isinstance(e, (ValueError, NotImplementedError))
  line = (last.line or "") if last else ""
  if in_repo and explicit_type and line.strip().startswith("raise"):
    return "explicit"
  return "internal"
