#!/venv/bin/python
"""tools/keep_seeded.py <id> <caught_by 'C04:clause' or 'MISSED'> : copies a confirmed red-team change into
/verif/seeded/<id>/ (patch.diff, demo.py, meta.json extended with what was run) and removes its worktree."""
import json, shutil, subprocess, sys
from pathlib import Path
rid, caught = sys.argv[1], sys.argv[2]
src = Path("/tmp/rt/out") / rid
dst = Path("/verif/seeded") / rid
dst.mkdir(parents=True, exist_ok=True)
for f in ("patch.diff", "demo.py"):
  shutil.copy(src / f, dst / f)
meta = json.loads((src / "meta.json").read_text())
log = (src / "confirm.log").read_text().strip().splitlines()
meta["confirmed"] = {"demo": log[0], "repository_tests_with_change": log[-1],
                     "how": "tools/confirm_seeded.sh: demo.py with PYTHONPATH=/repo (must pass) and with the changed worktree (must fail); full repository test-suite in the changed worktree (3 pre-existing failures deselected)"}
meta["detected_by"] = caught
meta["how_checked"] = "tools/seeded.sh <patch> <id> -- <check>: patch applied to a scratch copy of /repo/precondition, check run with VERIF_REPO pointing at it"
(dst / "meta.json").write_text(json.dumps(meta, indent=1))
subprocess.call(["git", "-C", "/repo", "worktree", "remove", "--force", f"/tmp/rt/{rid}"])
print("kept", rid, caught)
