#!/venv/bin/python
"""Regenerates the per-property status table in DESIGN.md (section 0.6) from evidence/*.json."""
import json
from pathlib import Path
ROOT = Path(__file__).resolve().parent.parent
rows = ["| id | level | TLC states / transitions (quick) | behaviours replayed + traces accepted | distinct cases | self-tests | known findings hit | quick wall (s, as last run) |",
        "|---|---|---|---|---|---|---|---|"]
for f in sorted((ROOT / "evidence").glob("C*.json")):
  e = json.loads(f.read_text()); c = e["coverage"]
  rows.append(f"| {e['property_id']} | {e['level']} | {c.get('states', 0):,} / {c.get('transitions', 0):,} | "
              f"{c.get('traces_validated_against_impl', 0):,} | {c.get('distinct_nontrivial', 0):,} | "
              f"{len(c.get('binding_selftests', []))} | {len(c.get('known_findings_hit', []))} | {e['wall_s']:.0f} ({e['tier']}) |")
table = "\n".join(rows)
p = ROOT / "DESIGN.md"; s = p.read_text()
a, b = "<!-- STATUS-TABLE-BEGIN -->", "<!-- STATUS-TABLE-END -->"
if a not in s:
  s = s.replace("---------------------------------------------------------------------------\n\n## 1. What the technique reaches here",
                "### 0.6 Measured coverage of the last quick run of every check (from evidence/*.json)\n\n" + a + "\n" + b +
                "\n\nWall times are taken while other work was running on the box; `vp check` on a fresh copy ran 14 quick checks in 19 minutes.\n\n"
                "---------------------------------------------------------------------------\n\n## 1. What the technique reaches here", 1)
i, j = s.index(a) + len(a), s.index(b)
s = s[:i] + "\n" + table + "\n" + s[j:]
p.write_text(s)
print(len(rows) - 2, "rows")
