#!/bin/bash
# tools/mutant.sh <name> <file-relative-to-repo> <python-regex> <replacement> -- <check ids...>
# Copies /repo/precondition to a scratch dir, applies ONE substitution (must match exactly once
# unless COUNT is set), runs the given checks against it, removes the scratch dir.
name=$1; file=$2; pat=$3; rep=$4; shift 5
d=/tmp/mut_$name; rm -rf $d; mkdir -p $d; cp -r /repo/precondition $d/
/venv/bin/python - "$d/$file" "$pat" "$rep" "${COUNT:-1}" <<'P' || exit 3
import re,sys
f,pat,rep,cnt=sys.argv[1:5]
s=open(f).read()
n=len(re.findall(pat,s))
if n!=int(cnt): print("pattern matched",n,"times, expected",cnt); sys.exit(3)
open(f,'w').write(re.sub(pat,rep,s))
P
for id in "$@"; do
  VERIF_REPO=$d ./check $id --tier ${TIER:-quick} > /tmp/mut_$name.$id.log 2>&1; rc=$?
  echo "mutant $name check $id rc=$rc $(grep -c '^VIOLATION' /tmp/mut_$name.$id.log) violations; $(grep -m1 -A1 '^VIOLATION' /tmp/mut_$name.$id.log | tail -1 | cut -c1-160)"
done
rm -rf $d
