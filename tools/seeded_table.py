#!/venv/bin/python
"""Regenerates the seeded-changes table in DESIGN.md from seeded/*/meta.json."""
import json
from pathlib import Path
ROOT = Path(__file__).resolve().parent.parent
rows = ["| id | property | change (one line) | needs to manifest | detected by |", "|---|---|---|---|---|"]
for d in sorted((ROOT / "seeded").iterdir()):
  m = json.loads((d / "meta.json").read_text())
  def clean(x):
    return str(x).replace("|", "\\|").replace("\n", " ")[:400]
  rows.append(f"| {d.name} | {m.get('property')} | {clean(m.get('summary'))} | {clean(m.get('needs_to_manifest'))} | {clean(m.get('detected_by'))} |")
table = "\n".join(rows)
p = ROOT / "DESIGN.md"
s = p.read_text()
a, b = "<!-- SEEDED-TABLE-BEGIN -->", "<!-- SEEDED-TABLE-END -->"
if a not in s:
  s = s.replace("SEEDED_TABLE_PLACEHOLDER", a + "\n" + b)
i, j = s.index(a) + len(a), s.index(b)
s = s[:i] + "\n" + table + "\n" + s[j:]
p.write_text(s)
print(len(rows) - 2, "seeded changes listed")
