#!/bin/bash
# tools/confirm_seeded.sh <id>: confirms a red-team change kept in worktree /tmp/rt/<id> with outputs in /tmp/rt/out/<id>:
#  demo passes on /repo, fails on the worktree; the repository's own test-suite still passes in the worktree.
id=$1; wt=/tmp/rt/$id; out=/tmp/rt/out/$id; log=/tmp/rt/out/$id/confirm.log
{
cd $out
PYTHONPATH=/repo JAX_PLATFORMS=cpu /venv/bin/python demo.py > demo_orig.txt 2>&1; a=$?
PYTHONPATH=$wt JAX_PLATFORMS=cpu /venv/bin/python demo.py > demo_changed.txt 2>&1; b=$?
echo "demo original rc=$a changed rc=$b"
cd $wt && JAX_PLATFORMS=cpu /venv/bin/python -m pytest -q -p no:cacheprovider --timeout=1800 -x --deselect precondition/distributed_shampoo_test.py::DistributedShampooTest::test_matrix_inverse_root_padding1 --deselect precondition/tearfree/momentum_test.py::MomentumTest::test_basic0 --deselect precondition/tearfree/optimizer_test.py::OptimizerTest::test_lr 2>&1 | tail -3
} > $log 2>&1
echo "$id: $(head -1 $log) | $(tail -1 $log)"
