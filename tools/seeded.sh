#!/bin/bash
# tools/seeded.sh <patch.diff> <name> -- <check ids...>   (scratch copy; /repo untouched)
patch=$1; name=$2; shift 3
d=/tmp/seed_$name; rm -rf $d; mkdir -p $d; cp -r /repo/precondition $d/
(cd $d && patch -p1 -s < $patch) || { echo "patch failed"; exit 3; }
for id in "$@"; do
  VERIF_REPO=$d ./check $id --tier ${TIER:-quick} > /tmp/seed_$name.$id.log 2>&1; rc=$?
  echo "seeded $name check $id rc=$rc $(grep -c '^VIOLATION' /tmp/seed_$name.$id.log) violations; $(grep -m1 -A1 '^VIOLATION' /tmp/seed_$name.$id.log | tail -1 | cut -c1-200)"
done
rm -rf $d
