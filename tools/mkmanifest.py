#!/usr/bin/env python3-vt
"""Regenerates MANIFEST.json from the table below and validates it against the schema."""
import json
import os
import sys
from pathlib import Path

ROOT = Path(__file__).resolve().parent.parent

CHECKS = {
 "C04": dict(level="model_checking", ref="4/C04",
   technique="TLA+ spec DSControl/TFControl checked exhaustively by TLC; TLC-exported behaviours replayed into the real optimizers (change bits, counts, provenance via the code's own every-step twin); recorded traces validated by TLC against DSControl_Trace",
   text="TLC checks the cadence / warm-up / counter action properties on every configuration of the bounded grid (statistics and preconditioner intervals, scheduled intervals in exact integer arithmetic, start step, replicated / pmap-quantized / sharded order of phases). Every exported behaviour is replayed on the real Distributed Shampoo (3 modes) and Tearfree Shampoo/Sketchy: per step the bytewise change bits of statistics, roots and metrics, the counter, and the provenance (statistics equal those of an every-step twin fed exactly the absorbed gradients; roots equal the twin's roots at the refresh) must match; randomly configured runs (intervals up to 7, up to 40 steps) are recorded and validated as traces.",
   note="Trusted: TLC, the projection (bytewise comparison of successive state leaves), genericity of seeded normal gradients (provenance change implies byte change), 1e-5/1e-3 tolerance between twin XLA programs. Bounds: S,P<=3 (4 thorough) exhaustively, <=7 in traces; T<=24 (40 in traces)."),
 "C03": dict(level="model_checking", ref="4/C03",
   technique="TLA+ spec DSControl (acceptance gate) checked exhaustively by TLC; TLC-enumerated fault schedules driven through the real optimizer in three modes; every recorded per-statistic trace validated by TLC against DSControl_Trace",
   text="TLC checks on the model that a stored root changes only on a refresh step, only to the candidate, only when the reported error class is finite-and-below-threshold (select, never blend), that the sentinel error of non-refresh steps keeps the old root and that a zero threshold freezes it, for every fault schedule, error class, threshold class and mode. TLC then enumerates all gradient-fault schedules (8 classes incl. NaN/Inf/zero/huge/tiny and the moderate extremes 1e12/1e-12; <=2 faults in 5 steps quick, <=3 in 6 thorough) x (S,P) x mode; each is run on the real optimizer (replicated, pmap int16-quantized, sharded; thresholds 0/1e-30/0.1/1e30; ridge 0 and >0; Newton/eigh; 6 graft types; 1x1 statistics included) and every statistic's trace - bytewise change bit of the stored root (payload+diagonal+buckets when quantized, the global row when sharded), error class by exact float comparison, finiteness of root and update - must be accepted.",
   note="Trusted: TLC, bytewise projection, training_metrics as the reported error (on non-refresh steps the sentinel is modelled, not observed). Kernel contracts (accepted => finite; moderate history => finite update) are clauses of the trace spec, i.e. checked on every run, not assumed. One forced host device in pmap modes."),
 "C02": dict(level="model_checking", ref="4/C02",
   technique="TLA+ refinement: implementation-shaped term machine DSTerms refines the documented closed forms DSDoc (TLC, exact dyadic coefficients, symbolic gradients); TLC-exported behaviours interpreted in float64 and compared with the real optimizer's update, statistics and roots",
   text="TLC proves, for every configuration of the bounded option product (7 graft types, beta1, beta2 incl. 1, Nesterov, moving-average momentum, weight decay x decoupling, learning-rate decoupling x schedule, start step, statistics/preconditioner intervals, skip, replicated/sharded) and every step up to T, that the recursively updated buffers of the implementation-shaped machine equal the documented non-recursive closed forms (statistics decay weights, root provenance incl. the sharded one-step staleness, both momentum series incl. the weight-decay geometric series, Nesterov, placement of the learning rate) - coefficient arithmetic is exact and gradient values are universally quantified. Seeded TLC simulations of the same module export behaviours whose update terms the harness interprets in float64 (a reference written from the documentation: merge, blocks, per-axis Gram matrices, inverse 2k-th roots with the documented ridge, graft rescale) on 10 parameter geometries (ranks 1-4, ragged blocks, merged dims, INPUT/OUTPUT types, exponent override, Newton and eigh) and compares with the real update (2e-3 of max-abs; measured 8e-6), statistics (1e-5) and stored roots (1e-3), float32 trees under jax_enable_x64.",
   note="Trusted: TLC; the float64 interpretation of ~10 primitive symbols (harness/refds.py); the ridge of a Newton root uses the retry count the optimizer reports; relative ridge 2^-10 and dense seeded gradients keep the comparison well conditioned. The gate (C03), the cadence under scheduled intervals (C04) and quantised state (C11) are decided elsewhere."),
 "C05": dict(level="model_checking", ref="4/C05",
   technique="TLC invariants on the DSTerms term machine and the TFControl warm-up action property; exported behaviours executed on the real optimizers in every preconditioner representation, norm and direction judged against the code's own twin configurations and float64 closed forms of the graft step",
   text="TLC shows on DSTerms (momentum and weight decay off) that the emitted update is exactly one symbol: -lr(count) x S(s) (direction of the preconditioned gradient rescaled to the graft norm) from the start step on for a preconditioned parameter, -lr(count) x F(s) (the graft step) before it and always for skipped parameters, for all 6 graft types, start steps, skip, intervals, learning-rate coupling/schedule and both modes; TFControl's Warmup property gives the same for Tearfree incl. masked parameters. Each exported behaviour runs on the real code in full, sharded, int16-quantized, low-rank compressed (+r, -r), frequent-directions representations and on Tearfree Shampoo/Sketchy with SGD/RMSProp/AdaFactor grafts, dense and sparse (exact zeros) gradients: S(s) => |u| = |graft step| (1e-5) and cos(u, preconditioned gradient) = 1 (1e-5), u = 0 for a zero direction; F(s) => u = graft step (1e-6); the graft step itself vs its closed form (1e-5).",
   note="Trusted: TLC; direction oracle = same configuration with graft NONE (statistics/roots do not depend on the graft type), graft-step oracle = same configuration that never starts preconditioning (different XLA programs: 1e-6/1e-5 tolerances, measured 1e-7). AdaFactor's step is taken from optax (not code under test)."),
 "C08": dict(level="model_checking", ref="4/C08",
   technique="TLA+ dependency-set model Blocks (phases stats/roots/apply/graft/emit) checked by TLC incl. two deliberately leaky variants; TLC-enumerated cases replayed on the real Distributed Shampoo and Tearfree Shampoo: blocked tensor vs its blocks as separate leaves, common graft factor, companion independence",
   text="TLC checks on the information-flow model that the direction of a block's update depends only on that block's gradient history and that nothing of another parameter reaches a parameter's update when cut-off and padding of the batched root routine are per block, and that both invariants are violated by the 'cut-off relative to the batch maximum' variant (Tearfree before its repair) and by leaky padding. TLC enumerates the replay cases (2, 3 (ragged where supported) and 2x2 blocks x 7 per-block gradient scale patterns over {1e-6,1,1e6} (1e-4/1e4 quick) x 4 companion kinds); for each, on both optimizers, the blocked tensor's un-grafted update equals block by block the update of the blocks optimised as separate leaves (1e-4 of the block's own max-abs), the grafted update is the un-grafted one times a single scalar, and adding a companion (vector, larger matrix, 1e6-scale leaf) leaves the target's update unchanged.",
   note="Trusted: TLC; seeded normal gradients times the scale class; blocked and separate-leaf runs are different XLA programs (1e-4 tolerance, measured 1e-7). Bounds: block size 3, 4 steps, <= 4 blocks."),
 "C15": dict(level="model_checking", ref="4/C15",
   technique="TLA+ refinement: implementation-shaped chain machine TFTerms refines documented closed forms TFDoc (TLC, exact dyadic coefficients); TLC-exported behaviours interpreted in float64 and compared with the real Tearfree update; paired runs at twice the learning rate",
   text="TLC proves for every configuration of the bounded product (4 graft types x start step x skip (ignored for NONE) x ema x Nesterov x momentum decay x weight decay before/after x constant/scheduled learning rate with its own counter x statistics/root frequencies x decays) and every step that the chain as implemented (second order with fresh roots -> graft or graft-norm rescale -> [ema scale] -> trace -> weight decay -> learning rate) equals the documented closed forms. Seeded TLC simulations export behaviours; a float64 reference written from the documentation (merge, ragged blocks without padding, per-block inverse (2 x rank)-th roots with the per-block 1e-6 cut-off, frequent-directions root, RMSProp/AdaFactor graft) interprets the update terms on 10 geometries (blocked, 2x2 blocks with 1e-4/1e3 scale disparity between blocks, padded ragged block, merged rank 3, masked vector, Sketchy rank 2 relative/absolute epsilon) and is compared with the real update: Shampoo in float64 under x64 at 1e-9 (measured 2e-15), Sketchy in float32 at 1e-4 (measured 5e-7); each run is paired with one at 2 x lr and the updates must be in ratio exactly 2 (<= 2 ulp; measured 0).",
   note="Trusted: TLC; harness/reftf.py; optax's AdaFactor as the graft oracle for that type. Sketchy is compared only where the per-axis Gram rank exceeds the sketch rank (at rank exactly k the code's exact-zero tests are decided by float32 noise). ekfac_svd / linear_approx_tail / add_ggt / memory_alloc variants are not covered."),
 "C06": dict(level="model_checking", ref="4/C06",
   technique="TLA+ spec Shapes (tensors as index maps, one action per code step) checked exhaustively by TLC; TLC-exported cases replayed into the real shape functions with exact elementwise comparison; traces of random large shapes validated by TLC against Shapes_Trace",
   text="TLC checks exhaustively, on a TLA+ transcription (spec/Shapes) of merge_small_dims, BlockPartitioner, the Preconditioner's shape/slot bookkeeping, Tearfree _blocks_metadata/_blockify/_deblockify and the Tearfree reshaper in which tensors are index maps (output position -> linear index of the input element, so order is part of the model), 28 invariants and one action property for every shape of rank 0..4 with dims 1..4 (thorough: rank 5 with dims <=3, rank <=3 with dims <=6, Tearfree dims up to 9) x block sizes 1..5(7) x merge limits {off,1,2,3,4,6,8,4096} x ALL/INPUT/OUTPUT: product and limit of merged shapes, split sizes (positive, <= block size, exact sum, no empty block), blocks = contiguous sub-tensors in product order and bijective, announced preconditioners aligned with the blocks, slot lists of length rank using every announced matrix exactly once, identity preconditioning and merge.partition / deblockify.blockify / unmerge.merge round trips, pad rule, documented rejections. Every exported case (23,640 quick / 158,178 thorough) is executed on the real functions with index-valued tensors and compared elementwise and exactly, including tagged diagonal preconditioners (which matrix touches which axis of which block) and the order of statistics; random larger shapes (dims to 4096, <=2^20 elements, rank <=5) are recorded step by step and validated by TLC against the module's own actions with element probes.",
   note="Exact integer arithmetic (float64, values < 2^53), no tolerance. Trusted: TLC, jax eager execution, the closed-form label functions (tied to the index maps by the invariant ClosedForms in every exhaustive run). Tearfree/reshaper rejections: a rejection predicted by the spec and raised by an explicit ValueError is agreement; the reason text is not compared. Quick replay covers rank <=3 exhaustively and rank 4 over {2,3},{1,4}; rank 4 with dims <=4 and rank 5 are replayed in the thorough tier and reach the quick tier through the trace leg."),
 "C01": dict(level="exploration", ref="4/C01",
   technique="TLA+ automaton of the inverse-root routines' case structure (InvRoot) with exhaustive invariants; TLC-enumerated case lattice replayed into the real routines on matrices with prescribed spectrum; TLC trace validation with decimal-float arithmetic and one-sided rounding deciding the honesty relation",
   text="TLC checks the case structure and bookkeeping of the three inverse-root routes (masking, ridge rule incl. floor and 10x escalation per retry, 1x1 branch, retry loop, deflation bracket, figure source, all-padding override, gate) exhaustively (16 invariants). It enumerates the full 147 456-case lattice (n <= 16, rank patterns, spread <= 1e8, scale 1e+-6, padding incl. junk fill and all-padding, p <= 8, two epsilons, relative/absolute, Newton/eigh/LOBPCG, f64/f32). A seed-moved slice (~600 quick, ~27 000 thorough) is run through the real routines on Q diag(a) Q^T. Every call is validated by TLC against InvRoot_Trace: structural clauses (finite, symmetric, exact zeros on padding), retry-automaton consistency, lambda_hat <= lambda_max, and in float64 `measured residual <= figure (1+2^-23) + 1000 n p 2^-53 cond(A+dI)` for cond <= 1e13, with the ridge reconstructed by the spec from the reported lambda_hat and retries. Accuracy is MEASURED by the harness (numpy float64), the relation is decided by TLC.",
   note="Accuracy is measured on matrices with prescribed spectrum, not proved for all PSD matrices; the iteration itself is an environment choice of the model. A float32 report stands for a real within 2^-23. The eigh estimate is bounded by a per-case checked power-iteration premise. f32 gets structural clauses only. LOBPCG only at n = 16, k in {2,3}. Slack constant 1000 (worst measured excess/slack 0.0135)."),
 "C09": dict(level="model_checking", ref="4/C09",
   technique="TLA+ spec FD (exact rational frequent directions on axis-aligned histories) checked exhaustively by TLC; TLC-exported behaviours replayed, rotated by a random orthogonal matrix, into three implementations directly and through two optimizers; measured traces of dense histories validated by TLC (FD_Trace)",
   text="TLC checks on exact-rational axis-aligned histories (d<=5, k<=3, decays 1, 1/2, 3/4, per-step ridge, T<=5) the PSD bracket, non-negativity, rank bound, tail law t'=b t+r, zero-step, low-rank exactness, the FD guarantee, and that the stored inverse-root arguments equal l+t. Every exported behaviour (all of depth 3, ridge behaviours of depth 4, a seeded sample of depth 6) is replayed, rotated by a random orthogonal Q, into DS _fd_update_root (packed, padded), Tearfree _update_axis (rank 1..3, any axis), OCO _fd_update_fn (x64), and through the real DS-FD and Tearfree-Sketchy optimizers; sketch matrix, tail, orthonormal-or-zero columns, both bracket margins and inverse-root arguments compared in mass space. Dense non-commuting histories are measured in float64 (numpy) and the margins validated by FD_Trace.",
   note="Trusted: TLC, numpy eigvalsh, rotation equivariance. The has_zeros flag is compared only where no slot is empty and no eigenvalues tie at the cut. Ridge > 0 is replayed only on slot-full behaviours. DS sharded/pmap modes of FD are not exercised here (gradient-averaging windows and reset are C04's FD leg). Known open finding ds|fd|mixed_sizes|sketch_lost_by_truncation."),
 "C10": dict(level="model_checking", ref="4/C10",
   technique="TLA+ spec LowRank (pack, root-selection and apply machines) checked exhaustively by TLC; TLC-exported cases replayed on the real pack / root / apply functions and in optimizer runs",
   text="TLC checks for all d<=12, |r|+2<d, both signs, padding 0..3: packed slots in bounds and disjoint, pack->unpack identity on distinct tokens, _precond_dim <=> _should_compress, the retained and averaged sets of _low_rank_root with their divisor, and the loop invariant and axis / preconditioner pairing of _precondition_block (rank 1..3, ALL/INPUT/OUTPUT). Every case is replayed on the real functions (cell-exact pack/unpack; x64 root denotation against the exact root on the spec's retained set at 1e-6, half of the spectra rank deficient; compressed versus dense application 1e-9 in x64 and 1e-4 in float32, including has_zeros), and in real DS runs with compression_rank = +-r.",
   note="Spectra have a >=1.3x gap at every cut; rank-deficient spectra with a relative ridge are compared at 2e-4 (the null directions' root inherits the power iteration's stopping slack). The dense denotation is built from the code's own unpacked fields, whose cell map is checked separately. Optimizer-run roots are compared only where the spectrum is well conditioned."),
 "C11": dict(level="model_checking", ref="4/C11",
   technique="TLA+ spec Quant (integer lattice, float32 near-tie window explicit) checked exhaustively by TLC; TLC-exported allowed payload sets bound to the real quantizer by exact membership across the float32 exponent range; recorded grid tensors validated by TLC (Quant_Trace)",
   text="TLC proves on the integer lattice (every column max in 1..300 plus boundary values x every entry; every small matrix with and without diagonal extraction; N = 127 and 32767) that every payload the float32 arithmetic can produce - near-tie window, and exact round-half-even when N divides the max - is within half a bucket, never wraps, reproduces zero, diagonal and max exactly, and re-quantises to itself. The code is bound by exact payload membership on those columns x exponents across the float32 range (near overflow, normal floor, subnormal classes) in rank 1, 2, 3 and square tensors, eager and jit, int8/int16/bfloat16/float32, and by trace validation of random grid tensors.",
   note="Three open input classes are reported as known findings (bucket underflow, subnormal entry, FLT_MAX column in eager mode); ties under the window are pinned only for columns whose max is a multiple of N; TLC mantissas are 16-bit, 24-bit mantissas are judged by a numpy transcription of Quant!Allowed that is compared with TLC's export on every lattice entry."),
 "C12": dict(level="model_checking", ref="4/C12",
   technique="TLA+ spec SM3 (integer gradients, exact per-entry second moment as history variable) checked exhaustively by TLC; behaviours replayed into the real sm3 with exact accumulator equality; grid and float traces validated by TLC (SM3_Trace)",
   text="TLC proves cover, step bound, tightness, rank-1 exactness and monotonicity for all integer gradient histories within the bounds (ranks 1-4, <= 8 coordinates, T <= 3, beta2 in {1, 1/2, 3/4}). Every behaviour of depth <= 2 plus a simulated depth-3 sample is replayed into the real optimizer with exact accumulator equality and the update compared with -lr g / sqrt(nu + eps). Grid and float traces with beta1, weight decay and gradient normalisation are validated.",
   note="Float histories are judged by per-update violation counts with a 1e-4 one-sided margin (float64 recursion); update tolerance 2e-5 (measured 1e-7)."),
 "C16": dict(level="model_checking", ref="4/C16",
   technique="TLA+ spec OCO over FDLattice checked exhaustively by TLC; TLC-exported and TLC-simulated behaviours replayed into generate_init_update under x64; recorded fixed-point traces validated by TLC against OCO_Trace",
   text="TLC checks OGD/AdaGrad closed forms and, for the four sketched methods on an exact axis-aligned frequent-directions lattice, that the row machine refines documented FD, last row zero, bracket, rank bound, alpha law, lossless => sketch = covariance and S-AdaGrad's argument = delta + covariance (d<=4, k<=4, T<=5). Every exported behaviour (exhaustive d=3, sampled d<=5) is replayed under x64, rotated by a random orthogonal Q: iterate, sketch, singular values, e[-1]==0, alpha, t at 1e-9; S-AdaGrad against a full-matrix AdaGrad iterate; dense histories validated through measured bracket/alpha-law margins.",
   note="Trusted: TLC, float64 evaluation of the emitted function tags, rotation equivariance, numpy SVD for the independent rho^2. ADA_FD/FD_SON with delta>0 only; iterates at delta = 0 (division by a ~1e-32 alpha) are recorded as observations outside the property."),
 "C17": dict(level="model_checking", ref="4/C17",
   technique="TLA+ spec Realloc checked exhaustively by TLC; TLC-exported behaviours replayed into create_redist_dict (membership in the spec's allowed set, tie witnesses); recorded integer traces validated by TLC against Realloc_Trace",
   text="TLC checks on the model of create_redist_dict's per-group loop (one action per source step, float ties explicit, two float models) that at termination 1<=rank<=dim and sum rank<=n base, the three asserts are unreachable and resource/leftover are conserved, for n<=4, scores 0..5(6), dim 2..6(1..8), base 1..6(9). Every exported behaviour is driven through the real function on synthetic states (all scoring rules, running average, multi-group calls, non-dyadic scalings); the real allocation must be one the spec allows; unused branches are reported. Random float-score calls (scale-disparate 1e-8..1e8, tied, zero) and the repo's recorded checkpoint are validated as integer traces.",
   note="Trusted: TLC, group order read from the code's own create_groups under PYTHONHASHSEED=0; the exact allocation is claimed only for integer-proportional scores, arbitrary floats only for the budget/range."),
}

NA_REASON = "check not built yet in this round (work in progress; see DESIGN.md section 9)"


def main():
  props = [json.loads(l) for l in open(ROOT / "properties.jsonl")]
  m = {
      "version": 1,
      "setup_cmd": "./setup.sh",
      "hooks": {
          "guard": "PRECONDITION_VERIF",
          "enable": "none needed: the library is sequential and functional and the public state pytree exposes the abstract state; no hook was added to /repo",
          "baseline_off_cmd": "cd /repo && /venv/bin/python -m pytest -ra -q -p no:cacheprovider --timeout=900 --continue-on-collection-errors",
          "source_commits": [],
          "add_only": True,
      },
      "engines": [
          {"name": "tlc-exhaustive", "path": "spec/*_MC.cfg", "serves_properties": sorted(CHECKS),
           "kind_free_text": "TLC exhaustive model checking of the TLA+ modules (invariants, action properties, refinement)"},
          {"name": "tlc-gen-replay", "path": "spec/*_Gen.tla", "serves_properties": sorted(CHECKS),
           "kind_free_text": "behaviours exported by TLC (@@GEN lines) replayed into the real code, abstract state compared after every step"},
          {"name": "tlc-trace-validate", "path": "spec/*_Trace.tla", "serves_properties": sorted(CHECKS),
           "kind_free_text": "traces recorded from the real code validated by TLC against the spec's own actions; one named verdict per trace"},
      ],
      "checks": [],
      "notes": "Every check is `./check <ID> [--tier quick|thorough]`; exit 0 held / 1 VIOLATION / 2 machinery failure. Genuine defects repaired in /repo are listed as fixed in known_findings.json.",
      "not_applicable": [],
  }
  for p in props:
    pid = p["id"]
    if pid in CHECKS and (ROOT / "harness" / "props" / f"{pid.lower()}.py").exists():
      c = CHECKS[pid]
      m["checks"].append({
          "property_id": pid,
          "quick_cmd": f"./check {pid} --tier quick",
          "thorough_cmd": f"./check {pid} --tier thorough",
          "evidence_file": f"/verif/evidence/{pid}.json",
          "replay_cmd_template": f"./check {pid} --replay {{path}}",
          "engine": "tlc-exhaustive + tlc-gen-replay + tlc-trace-validate",
          "level_claimed": {"category": c["level"], "text": c["text"], "design_ref": "DESIGN.md " + c["ref"]},
          "level_note": c["note"],
          "technique": c["technique"],
      })
    else:
      m["not_applicable"].append({"property_id": pid, "reason": CHECKS.get(pid, {}).get("na", NA_REASON)})
  (ROOT / "MANIFEST.json").write_text(json.dumps(m, indent=1))
  import jsonschema
  jsonschema.validate(m, json.load(open("/root/.vp/MANIFEST.schema.json")))
  ev = json.load(open("/root/.vp/EVIDENCE.schema.json"))
  for c in m["checks"]:
    f = Path(c["evidence_file"])
    if f.exists():
      jsonschema.validate(json.load(open(f)), ev)
  print("MANIFEST ok:", [c["property_id"] for c in m["checks"]], "n/a:", len(m["not_applicable"]))


if __name__ == "__main__":
  main()
