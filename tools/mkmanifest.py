#!/usr/bin/env python3-vt
"""Regenerates MANIFEST.json from the table below and validates it against the schema."""
import json
import os
import sys
from pathlib import Path

ROOT = Path(__file__).resolve().parent.parent

CHECKS = {
 "C04": dict(level="model_checking", ref="4/C04",
   technique="TLA+ spec DSControl/TFControl checked exhaustively by TLC; TLC-exported behaviours replayed into the real optimizers (change bits, counts, provenance via the code's own every-step twin); recorded traces validated by TLC against DSControl_Trace",
   text="TLC checks the cadence / warm-up / counter action properties on every configuration of the bounded grid (statistics and preconditioner intervals, scheduled intervals in exact integer arithmetic, start step, replicated / pmap-quantized / sharded order of phases). Every exported behaviour is replayed on the real Distributed Shampoo (3 modes) and Tearfree Shampoo/Sketchy: per step the bytewise change bits of statistics, roots and metrics, the counter, and the provenance (statistics equal those of an every-step twin fed exactly the absorbed gradients; roots equal the twin's roots at the refresh) must match; randomly configured runs (intervals up to 7, up to 40 steps) are recorded and validated as traces.",
   note="Trusted: TLC, the projection (bytewise comparison of successive state leaves), genericity of seeded normal gradients (provenance change implies byte change), 1e-5/1e-3 tolerance between twin XLA programs. Bounds: S,P<=3 (4 thorough) exhaustively, <=7 in traces; T<=24 (40 in traces)."),
}

NA_REASON = "check not built yet in this round (work in progress; see DESIGN.md section 9)"


def main():
  props = [json.loads(l) for l in open(ROOT / "properties.jsonl")]
  m = {
      "version": 1,
      "setup_cmd": "./setup.sh",
      "hooks": {
          "guard": "PRECONDITION_VERIF",
          "enable": "none needed: the library is sequential and functional and the public state pytree exposes the abstract state; no hook was added to /repo",
          "baseline_off_cmd": "cd /repo && /venv/bin/python -m pytest -ra -q -p no:cacheprovider --timeout=900 --continue-on-collection-errors",
          "source_commits": [],
          "add_only": True,
      },
      "engines": [
          {"name": "tlc-exhaustive", "path": "spec/*_MC.cfg", "serves_properties": sorted(CHECKS),
           "kind_free_text": "TLC exhaustive model checking of the TLA+ modules (invariants, action properties, refinement)"},
          {"name": "tlc-gen-replay", "path": "spec/*_Gen.tla", "serves_properties": sorted(CHECKS),
           "kind_free_text": "behaviours exported by TLC (@@GEN lines) replayed into the real code, abstract state compared after every step"},
          {"name": "tlc-trace-validate", "path": "spec/*_Trace.tla", "serves_properties": sorted(CHECKS),
           "kind_free_text": "traces recorded from the real code validated by TLC against the spec's own actions; one named verdict per trace"},
      ],
      "checks": [],
      "notes": "Every check is `./check <ID> [--tier quick|thorough]`; exit 0 held / 1 VIOLATION / 2 machinery failure. Genuine defects repaired in /repo are listed as fixed in known_findings.json.",
      "not_applicable": [],
  }
  for p in props:
    pid = p["id"]
    if pid in CHECKS and (ROOT / "harness" / "props" / f"{pid.lower()}.py").exists():
      c = CHECKS[pid]
      m["checks"].append({
          "property_id": pid,
          "quick_cmd": f"./check {pid} --tier quick",
          "thorough_cmd": f"./check {pid} --tier thorough",
          "evidence_file": f"/verif/evidence/{pid}.json",
          "replay_cmd_template": f"./check {pid} --replay {{path}}",
          "engine": "tlc-exhaustive + tlc-gen-replay + tlc-trace-validate",
          "level_claimed": {"category": c["level"], "text": c["text"], "design_ref": "DESIGN.md " + c["ref"]},
          "level_note": c["note"],
          "technique": c["technique"],
      })
    else:
      m["not_applicable"].append({"property_id": pid, "reason": CHECKS.get(pid, {}).get("na", NA_REASON)})
  (ROOT / "MANIFEST.json").write_text(json.dumps(m, indent=1))
  import jsonschema
  jsonschema.validate(m, json.load(open("/root/.vp/MANIFEST.schema.json")))
  ev = json.load(open("/root/.vp/EVIDENCE.schema.json"))
  for c in m["checks"]:
    f = Path(c["evidence_file"])
    if f.exists():
      jsonschema.validate(json.load(open(f)), ev)
  print("MANIFEST ok:", [c["property_id"] for c in m["checks"]], "n/a:", len(m["not_applicable"]))


if __name__ == "__main__":
  main()
